from common import COMMON_TB

PROP = dict(
        module="IocProofs.C14",
        level_text="Proved in Lean for EVERY number of closers, every subset of closers that return an error and every schedule "
                   "(induction over the reachability relation of an interleaving transition system whose guards are computed from the "
                   "regenerated synchronisation skeleton of App.Close): when Close has returned every closer was invoked exactly once and "
                   "has returned (C14_all_once, C14_never_twice), Close can return (C14_can_return), and from every reachable state "
                   "closer i can be invoked and finish while all siblings stand still (C14_no_block); all n closers can be inside their Close at the "
                   "same moment (C14_all_inside_together), so closers that wait for each other are all released. The same skeleton without Wait, "
                   "or with Add inside the goroutine, has a schedule that returns with a closer not invoked (counterexample theorems). "
                   "Sixth round: with the definition registry's map keyed by the component name itself every registered component gets a "
                   "definition of its own, whatever the names look like and in whatever order the parallel scans arrive "
                   "(C14_exact_names_all_defined, C14_injective_key_all_defined); a key under which two different registered names collide - "
                   "e.g. one that forgets the letter case - leaves a component without definition, hence never closed "
                   "(C14_colliding_key_drops_a_component, C14_case_folded_key_counterexample). "
                   "Eighth round: a start through the package-level entry points runs `append(ops, registerHandlers...)` - whatever options "
                   "the call of ioc.Run is given (registries of its own included), every component handed to ioc.Register is in the registry of "
                   "the App it starts (C14_run_keeps_everything_registered, C14_run_registry), while the stored options FIRST let one SetRegistry "
                   "of the call discard all of them (C14_handlers_first_counterexample); every registered component gets its definition in the "
                   "tag scan whatever its Go kind (C14_every_kind_defined), a scan that looks at structs only drops the others "
                   "(C14_struct_only_scan_drops_a_component).",
        level_note="Modelled, not verified: sync.WaitGroup (atomic counter, Wait enabled at 0), goroutine creation; the model cannot show "
                   "scheduler starvation, a closer that never returns, or a panic inside a closer goroutine. The tie to the code is the "
                   "regenerated skeleton (C14_skeleton) plus real App.Close runs with 0-62 closers, delays 0-30 ms, random error subsets, "
                   "closers of zero-size types among them (a component's address is not its identity), closers that are themselves wired with "
                   "the App and created before it (the App collects a closer that is still in creation), and closers whose type prints like "
                   "the type of another component (reflect.Type.String() is not an identity; the harness process runs many Apps), and closers whose "
                   "component names differ only in letter case (self-chosen names and type names; a name is compared exactly). Which "
                   "components reach App.CloserComponents is decided by the container's wiring (C06/C08 model it); here it is tied by the real runs only - "
                   "eighth round: also for starts through ioc.Register + ioc.Run with a registry of the call's own (a fresh child process per history) "
                   "and for closers that are pointers to named integers / slices / strings / maps or named channels (the option order of run.go "
                   "and the unguarded GetMetaOrRegister of the tag scan are modelled by hand, not regenerated).",
        subs=[dict(sub="close", driver="conc", n_quick=150, n_thorough=1000)],
        thorough_seeds=3,
        rule="close <n> <errmask> <seed>: n uniform in 0..16; error subset empty (25%), everyone (25%) or random (50%); each closer "
             "sleeps 0 ms (half of them) or uniformly 0-30 ms; counters and completion flags are read immediately after App.Close "
             "returns; a third of the cases are `closez <n> <errmask> <zmask> <seed>`: 1-8 of the closers (zmask) are stateless values "
             "of DISTINCT zero-size struct types (all at one address), their calls/returns counted per type in package-level "
             "counters; every 8th case is `closew <n> <errmask> <fastmask> <seed>`: 17-48 (one in five: 1-16) closers that WAIT FOR EACH "
             "OTHER - a closer returns only when all n have been entered (closers in fastmask, about a quarter of them in a third of the cases, "
             "return at once), with a 2 s give-up timer that only fires when the library holds closers back until others have returned "
             "(oracle close-slow-blocks-others: nobody had to give up); the model side runs one pseudo-random schedule of the proven transition system per scenario and samples at the "
             "step main returns; n = 0 is labelled trivial; distinct = distinct scenario lines; "
             "fifth round, appended to that stream (n/8 cases each) and present in the corpus: `closea <n> <errmask> <amask> <bmask> <tmask> <seed>`: 0-12 closers, those in "
             "amask carry a `*app.App` injection point, those in bmask a custom name (Naming()) that sorts BEFORE the App's own name "
             "github.com/go-kid/ioc/app/App (a-vc…, github.com/go-kid/ioc/app/A…, Vc…; the others vc…, …/app/App…, z-vc…), tmask adds up to two "
             "App-wired closers that are named after their type (after the App) and, optionally, an early-named component wired with them that "
             "pulls them in before the App; registration order rotated from the seed; `closed <n> <errmask> <pairs> <seed>`: 0-8 ordinary "
             "closers plus 1-4 pairs of components of DIFFERENT types that print the same (`*conn.Conn` / `*conn.Pool` / `*conn.Sess` of the "
             "packages internal/dupa/conn and internal/dupb/conn, two function-local types `conn`), exactly one of a pair being a closer "
             "(Sess: both), in both registration orders, or split over two Apps that are started and closed one after the other in the same "
             "process, in both orders; all under the same exactly-once oracle close-not-all-once (every REGISTERED closer invoked once and "
             "returned when Close returns); sixth round, appended (n/8 cases) and present in the corpus: `closec <n> <errmask> <groups> <seed>`: 0-8 "
             "ordinary closers plus 1-3 groups of 2-4 closers whose component NAMES DIFFER ONLY IN LETTER CASE - kind n: closers of one type naming "
             "themselves orders / Orders / ORDERS / oRDERS; kind t: closers of the types pool / Pool / POOL / pOOL of the package internal/kase, "
             "named by the container after their types; kind m: the type-named closer kase.Hub and closers naming themselves ...kase/hub, "
             ".../kase/HUB, .../kase/hUB - which spellings take part and where they stand among the other components drawn from the seed, "
             "registered in the drawn order or in the reverse order; same oracle; eighth round, appended and present in the corpus: n/8 cases "
             "`closek <n> <errmask> <kinds> <seed>`: 1-12 (one in eight: 13-32) closers, closer i of the Go kind kinds[i]: s pointer to struct (2 in 5), "
             "i pointer to a named integer, l pointer to a named slice, c named channel, t pointer to a named string, m pointer to a named map "
             "(self-named), I / L / C the first three named by the container after their type (each with probability 1/3, at most once); such "
             "values carry no fields - delay, error flag and counters live in a per-start recorder keyed by the value; components of map / func "
             "kind registered by value and integers / arrays / structs registered by value panic on the unchanged library and are not generated; "
             "n/10 cases `closep <regs> <opts> <errmask> <seed>`, EACH IN A FRESH CHILD PROCESS (ioc.Register appends to a package-level slice that "
             "is never cleared): 1-3 (one in eight: no) ioc.Register calls with 1-4 (one in six: 5-8) closers each, then one "
             "ioc.Run(SetConfigLoader(), opts...) whose options are, in three of four cases, app.SetRegistry(support.NewRegistry()) (one in six: "
             "twice) followed by 0-2 app.SetComponents options with 1-4 further closers each (a SetRegistry AFTER a SetComponents of the same call "
             "is not generated: it discards by the meaning of the option order); same oracle: every closer handed to ioc.Register or to a "
             "SetComponents option is invoked once and has returned when Close returns",
        trusted_base=COMMON_TB + ["the reading of Facts.closeSkel into guards (Ioc.Conc.closeShape) and the go/ast skeleton extractor "
                                  "(harness/cmd/facts: calls named Add/Done/Wait/Close, go statements, loops, branches)",
                                  "sync.WaitGroup and the Go scheduler as modelled (atomic counter; every interleaving of atomic steps)"],
        assumptions=["every closer's Close() returns (a closer that blocks forever blocks Close, by design of Wait)",
                     "a closer does not panic (Close has no recover; a panic in a goroutine ends the process)",
                     "sequentially consistent interleaving semantics for the WaitGroup operations"],
    )
