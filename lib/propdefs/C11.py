from common import COMMON_TB

PROP = dict(
        module="IocProofs.C11",
        level_text="For EVERY struct shape (mutual FieldT/Shape trees of any depth and arrangement, any tags) it is proved in Lean that the "
                   "scanner yields the same fields, declarations and order for a shape and its flattening, that it keeps exactly the exported "
                   "fields reached through anonymous untagged by-value structs, that the properties built by the tag scanners are the same for "
                   "both forms, that a custom tag processor gets exactly the fields carrying its tag with NewProperty's parse of the tag text, "
                   "that the value part handed over is the tag text before the first comma byte for byte — leading and trailing blanks and tabs "
                   "included, a value of blanks only included — whenever it holds no bracket (C11_value_verbatim), "
                   "and that only recognised fields can be written. The model is tied to the real Meta.scanFields / tag-scan processors on "
                   "every run by comparing, for thousands of runtime-built struct types (reflect.StructOf) and hand-written static types, the "
                   "real definition registry's Fields and Properties after app.Run with the Lean driver's output; sentinel read-back, "
                   "re-nesting equality and a recording processor are checked on the real code independently of the model. "
                   "A component that is ITSELF a non-lazy user post-processor is created inside the registration loop of InvokeBeanFactoryPostProcessors: "
                   "`Scan.populateLoop` models that loop with the chain each created processor is populated by (= the processors sorted ahead of it, "
                   "C11_holder_chain); a holder the ordering contract lets ahead of nobody is populated by every other processor, i.e. by the chain of "
                   "a plain component (C11_holder_like_plain, for any sort meeting C12's SortSpec); tied by Go-declared processor holders whose field "
                   "values must equal those of their plain twins (scan-holder-kind) and by the observed recorder calls (` pp rec=`).",
        level_note="Modelled, not verified: reflect's CanSet rule (settable iff the field itself is exported when reached through anonymous "
                   "structs from an addressable root), reflect.StructTag.Lookup as a first-match pair list, the fixed order of "
                   "t.Field(i). `writes` = fields owning a Property: a processor can only write through property.Value; a user processor "
                   "that keeps other pointers is outside the model. reflect.StructOf cannot build embedded types with methods or unexported "
                   "embedded fields: those are covered by six static types only.",
        subs=[dict(sub="scan", n_quick=800, n_thorough=30000)],
        thorough_seeds=2,
        rule="(tenth round) oracle scan-prop-args: a `prop` tag in the structured form `key,name=item…,flag` becomes a `value` property whose text is `${key}` and whose arguments are ALL the arguments written (plus the default Required flag), read off the tag text by the harness itself; half of the shapes repeat a field name in sibling embedded structs or repeat an embedded struct type under two parents (ambiguous promoted names, diamonds); n shapes; per shape the flattened form, the generated nesting (depth 0-5, thorough 0-8) and 1 (thorough 2) random re-nesting of "
             "the same units: leaves string/int/bool/Logger/provider pointer/interfaces, exported or unexported, untagged 22%, foreign 14%, "
             "malformed 4%, custom tag 10% (half of the custom tag texts are STRUCTURED: value + 1-3 named arguments, each a flag, 1-3 words, one bracketed group or 2-4 items mixing words and bracketed groups; groups in () [] {} hold 1-5 words separated by blanks / commas, nested up to depth 2 — oracle scan-custom-args reads value and arguments off the tag text with the harness' own reader, not the library's parser), recognised 50% over wire/func/value/prop/prefix/logger (with duplicates, shadowed prop, extra "
             "arguments); structs embedded untagged (descended), embedded tagged, embedded pointer, named, ScanGrp, ConfigurationProperties marker; "
             "a third of the shapes run once more (mode G+<pos><ret>: the generated nesting, 1/3 a fresh re-nesting) next to an EXTRA user InstantiationAware post-processor that is ahead of the recording processor in the chain (priority-ordered with the smallest Order = ahead of every built-in processor, or ordered with the largest Order = behind the built-in ones) and whose PostProcessProperties returns nil / the list it got / a reversed copy / an empty non-nil list / only the built-in-tag properties / only the custom-tag properties / a content-chosen part; compared with the flattened run WITHOUT the extra processor, all oracles unchanged (label extra-returns-without-custom-fields: the returned list leaves out fields the recorder must be handed); "
             "corpus (fifth round): SELF-CANDIDATE static types X6-X20 — a component that implements the interface its own wire points ask for "
             "([]Iface / Iface with one other candidate, optional Iface / []Iface with the holder as ONLY candidate, a required point with the "
             "holder as only candidate = start refused), the points declared directly (flat twins) and in an embedded struct that is the first member, "
             "after plain members, after another embedded struct, two and three levels deep, first member at every level, first member of a "
             "non-first embedded struct; each compared with its flat twin (scan-renest) and with the plain form [A] (scan-missed); "
             "sixth round (white space at the edges of tag VALUES, scanBlankPass, drawn from a PRNG seeded by the shape so the shapes stay the ones drawn before): "
             "two custom tags in five get a value that begins and/or ends with blanks / tabs, is made of blanks only or is a separator like ' | ' (arguments "
             "untouched; structured and unstructured texts alike; about 27% of the cases, 17% below at least one embedded level: labels custom-blank-value, "
             "custom-blank-value-embedded), every second plain string `value` literal is padded the same way (' lit', '${s.k1} ', '  ', '-> ': label value-blank-literal, "
             "the padded forms are among the plain forms of scan-missed); oracle scan-custom-value: the recorder's value equals the text before the first comma, "
             "read off the tag text by the harness (texts with a bracket in the value part are left to scan-custom-args, whose reader now keeps blanks and tabs in "
             "the value); corpus: static types X21/X22 (separators and blank literals directly and one / two embedded levels down, with the flat twin) and a StructOf "
             "shape with the same units 0 / 1 / 2 / 4 levels down, once next to an extra processor; "
             "seventh round (the MARKER FAMILY, n/10 further shapes drawn from fresh forks after all shapes above, plus corpus: Go-declared holder types X23-X27 and two StructOf shapes): "
             "the tag-less route into the configuration is the field's TYPE implementing definition.ConfigurationProperties, i.e. Go's method-set rule asked of the field's static type by the harness "
             "(reflect.Type.Implements): named fields of the Go-declared types ScanPMark / ScanPSet (Prefix() on the POINTER, prefix `grp`), ScanPNone (pointer receiver, a prefix the configuration "
             "does not hold) and ScanMark (value receiver), by value and by pointer (nil or pre-set), exported or not, with no tag / foreign tags / a prefix tag / the custom tag / junk, 2-5 of them per shape "
             "at random places the scanner walks (the component, embedded structs of any depth), the flattened form, the nesting and a re-nesting; the static types hold the same members also as ANONYMOUS "
             "members (tagged embedded struct, embedded pointer, untagged embedded struct = descended); labels mark-ptrrecv-byvalue[-embedded] (by value, pointer receiver, no prefix tag: NO configuration point; "
             "~75% / ~50% of these cases), mark-ptrrecv-byvalue-foreign-tag, mark-ptrrecv-pointer, mark-valrecv-byvalue, mark-valrecv-pointer, mark-prefix-tagged; oracles: scan-frame (sentinels) as before, and "
             "scan-frame-start: the same units WITHOUT those the property calls untouched (unexported / untagged and no marker / unrecognised tags only) end Run with the same outcome; "
             "ninth round (HOLDERS THAT ARE THEMSELVES POST-PROCESSORS, corpus only: reflect.StructOf types have no methods): Go-declared static types X28-X36 — "
             "five holders implementing container.ComponentPostProcessor (embedding *processors.DefaultComponentPostProcessor by POINTER = one more unit, left nil; "
             "explicit methods, Order() = 100; processors.DefaultInstantiationAwareComponentPostProcessor embedded BY VALUE = descended into, two empty levels, an active processor "
             "with Order() = MaxInt; *processors.DefaultInstantiationAwareComponentPostProcessor by pointer, pre-set; explicit methods with every field direct, Order() = 51), "
             "each carrying value / prop / prefix / wire / func / logger / custom-tag fields directly and one / two / three embedded levels down next to unexported, untagged and "
             "foreign-tagged ones, their PLAIN twins of the same nesting and the flat twins; mode token X<k>@<cls>[<order>] read off the type's method set; in these runs the recorder is "
             "Ordered (50: behind the built-in processors, ahead of the holder); oracle scan-holder-kind: holder and plain twin end Run with the same outcome and, unit by unit, the same "
             "values (the plumbing unit exists on the holder only and falls under scan-frame), all other oracles unchanged, every failing verdict reported; observation suffix ` pp rec=<c>` = "
             "recorder calls for the holder, predicted by the model from the sorted registration (Facts.builtinProcessors + recorder + holder); labels holder-processor, holder-processor-u/-o; "
             "non-trivial = at least one embedded level and at least one recognised exported unit; distinct = distinct scenario lines",
        trusted_base=COMMON_TB + ["the `marker` input of the model (the field implements ConfigurationProperties, with its Prefix()) is read off the field's static type by the harness with reflect.Type.Implements — Go's method sets: "
                                  "T for a by-value field, *T for a pointer field — not by the library's own type assertion",
                                  "reflect.StructOf builds types that reflect treats like compiled ones (checked against 4 compiled static types in the corpus)",
                                  "the harness recovers field paths from the real Holder chain by address (zero-size embedded structs have no fields, so no ambiguity)",
                                  "processor holders: the mode token (@u / @o<order> / @p<order>) is read off the holder type's method set by the harness (container.ComponentPostProcessor, "
                                  "definition.Ordered, definition.Priority), the recorder's Order() = 50 is a constant of harness and driver; the driver sorts with insertion sort "
                                  "(the keys of holder and recorder differ from every other key, so ties do not matter)"],
        assumptions=["the component is registered by pointer (addressable root), as the container requires",
                     "a holder that is itself a post-processor is compared with its plain twin only when it is non-lazy and sorted behind every built-in processor (not Ordered, or Ordered "
                     "without Priority and with an Order() above theirs): a processor is populated by the processors sorted AHEAD of it (C11_holder_chain) — a priority-ordered holder, or one "
                     "ordered ahead of a built-in processor, is served without the later ones on the unchanged library (examples next to C11_holder_like_plain), a LazyInit processor is never "
                     "populated; Scan.populateLoop covers a processor first requested by the loop itself (not one created earlier as a dependency of another processor)",
                     "C11_flatten_props: ExtractHandlers look at the field's declaration/value, not at its holder chain (proved for the built-in ones)",
                     "a failed start (Run error) is compared by outcome only: where population stops depends on Go map order",
                     "a pointer field whose type has a VALUE-receiver Prefix() is never nil when the container starts: the unchanged library asks the nil pointer for its prefix in a goroutine of its own and "
                     "the Go method wrapper panics there (the process dies; observed, reported, outside C11: nothing is modified); the harness pre-sets such fields",
                     "a user tag processor filters the properties it is handed by Tag, as every processor of the library does (the container hands every processor all properties of the component)",
                     "C11_code_handed reads the regenerated ResolveAfterInstantiation with every processor of the chain InstantiationAware and answering true to PostProcessAfterInstantiation (a skipped processor is handed nothing); the value PostProcessProperties returns is arbitrary"],
    )
