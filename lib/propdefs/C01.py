from common import COMMON_TB, GRAPH_TB, g_wiring, g_lifecycle, g_runners

PROP = dict(
    module="IocProofs.C01",
    signatures=['c01-', 'c03-stale'],
    subs=[dict(sub="graph", n_quick=1500, n_thorough=40000, project=g_wiring)],
    thorough_seeds=2,
    level_text='Identity of the shared instance is a theorem about the factory machine (Ioc.M2): for every scenario - every dependency graph, candidate order and substituting post-processor - every object stored in any field after a successful start is the one published in the singleton cache (invariant over all steps, lifted by induction over run). The machine, composed with the tag and matching models, is compared with the real App.Run on thousands of generated graphs per run (pointer identity read back by reflection).',
    level_note="Modelled, not verified: reflect, sync.Map order (imposed), sort.Slice, third-party callbacks as flags/functions. The graph sub-harness is shared with other properties: only this property's oracles and its projection of the observation are compared here.",
    rule='graphs over the fixed type universe (cycles of length 1-5 and their rotations, diamonds, slice fan-in, by-name/by-type/qualified edges, self candidates, substituted components, faults), each under one imposed enumeration order; non-trivial = at least two universe components and at least one injection point; distinct = distinct scenario lines',
    trusted_base=GRAPH_TB,
    assumptions=['callbacks that fetch components from the factory themselves are not modelled', 'each scenario runs under ONE imposed enumeration order here; C10 varies the order'],
)
