from common import COMMON_TB

PROP = dict(
        module="IocProofs.C15",
        level_text="Lean theorems, for all document lists, key trees, loader classes and option sequences: a path defined by exactly one "
                   "document stays visible with its value (no side condition); a later document that is silent about a path leaves it "
                   "untouched; a further document or loader, wherever SortOrderedComponents puts it, hides no path; the last document "
                   "defining a leaf path wins provided no document holds a map at that very path (the full statement is false of the "
                   "code because viper.MergeConfig keeps an earlier map over a later scalar: C15_counterexample, known finding KF-C15-1); "
                   "the loader sequence is a permutation: priority loaders by Order(), ordered loaders by Order(), the rest in "
                   "insertion order, for every number of loaders, and this sequence is the only arrangement meeting that description when no two "
                   "loaders of one class share an Order() (C15_sequence_determined: independent of the sorting algorithm); "
                   "add-type options never discard a configured loader. Several Initialize calls on one live Configure: every call merges ALL "
                   "currently configured loaders in loader sequence on top of the binder's content and stores the sorted list, which does not "
                   "disturb later calls (C15_initialize_is_merge, C15_resort_stable); after every call the last current document defining a leaf "
                   "path wins (same side condition), every path a configured loader supplies and every path visible before is visible, a loader "
                   "of any class added to a live Configure is loaded by the next Initialize (C15_reinit_last_wins_partial, "
                   "C15_initialize_never_drops, C15_late_source_is_loaded); the regenerated source of configure.loadConfigure / Initialize is "
                   "that loop on every call (C15_code_loadConfigure, C15_code_Initialize). Several Apps in one process with options registered "
                   "through app.Settings (runApp / runProc): the registered options are not used up — every App of a history is started with "
                   "everything registered before it, however many Apps were started earlier (C15_history_splits, C15_every_app_gets_registered) — "
                   "and a loader registered with an add-type option is configured in, and loaded by, every such App: all paths of its document "
                   "are visible there (C15_registered_sources_configured, C15_registered_source_is_loaded; code tie "
                   "C15_code_Run_applies_global_options). The model (viper's merge rule, the "
                   "SortOrderedComponents partition, the option fold, the loadConfigure loop) is tied to real app.NewApp().Run(...) + "
                   "App.Get (and, for histories, further options applied to the running App / calls on a bare configure.Configure, each "
                   "followed by Initialize and a read of every path) on generated source sets every run.",
        level_note="Modelled, not verified: spf13/viper MergeConfig/mergeMaps/insensitiviseMap/Get/AllSettings, yaml.v3, "
                   "go-kid/properties and strconv2 (ArgsLoader), sort.Slice on a class of fewer than 13 loaders (insertion sort, stable); "
                   "for larger classes only that sort.Slice returns an ascending permutation (then the result is the model's when the "
                   "Order() values differ pairwise).",
        subs=[dict(sub="config", n_quick=2000, n_thorough=60000)],
        thorough_seeds=1,
        rule="source sets: 1-5 loaders of kinds raw / file (temp files) / command-line arguments (--app.config=k=v given to "
             "loader.NewArgsLoader) / harness-defined Priority and Ordered raw loaders with orders in {-2..3}, added through random "
             "sequences of SetConfigLoader, AddConfigLoader, SetConfig(file), Configure.AddLoaders and SetConfigure (half of the cases "
             "keep the default ArgsLoader); key trees of depth <= 3 over six names in three spellings (forced overlaps), per-loader "
             "marker keys (disjoint), lists, nulls, empty maps, lower/UPPER duplicates inside one map, map/scalar conflicts forced "
             "in 1 of 8 cases, empty and failing loaders; queried: every path of every document in mixed case, absent paths and the "
             "empty path; 2 in 9 cases repeat a document (same bytes / same loader object / same file path) around a different overlapping one (X,Y,X); a case is non-trivial when it has at least two loaders; distinct = distinct scenario lines; "
             "every 25th case (tag many-loaders; 60 in quick, 2400 in thorough) and three corpus lines hold 12-40 loaders (13 and more with "
             "the default ArgsLoader) of mixed classes, priority/ordered/file loaders also added after none-ordered ones, no set option after "
             "the first option, forced overlaps (loader #i defines s<i> and s<i+1>, at the top level or below one map, most define the "
             "common key z, each with its own value) next to the random trees and markers; a priority or ordered class of 13+ members has "
             "pairwise different orders in -n..n, smaller classes draw from {-2..3} with ties; "
             "every 5th case (tag multi-init; 400 in quick) and 17 corpus lines are HISTORIES on one live container: the option sequence of "
             "such a source set cut into 2-4 batches by `IN` marks, the first batch given to app.NewApp().Run, every later one applied to the "
             "running App (app.SetConfig / AddConfigLoader / SetConfigLoader / SetConfigure / Configure.AddLoaders; set-type options after "
             "the first Initialize become add-type ones in 3 of 4 cases) and followed by App.Initialize(), one case in three on a bare "
             "configure.NewConfigure() with a ViperBinder instead (AddLoaders / SetLoaders, no default loader); every path is read after every "
             "Initialize and the oracles (signatures reinit-last-wins, reinit-source-lost, reinit-add-discards, reinit-phantom-key, and "
             "config-error / config-panic) are evaluated on the loader list configured at that moment; about 40% of the histories add a "
             "file / priority / ordered loader after an Initialize that loaded a none-ordered one (tag late-front); SetConfig with a file "
             "path given before (a,b,a / a,SetConfigLoader,a / a,SetConfigure,a) is in the corpus; "
             "about one generated App line in three (tag cmdline; ~620 in quick, ~290 with the command line still in the effective list, ~180 with tag cmdline-shared-plain) and 16 corpus lines "
             "run in a process whose command line holds --app.config arguments (scenario prefix `OA`: os.Args is replaced for the duration "
             "of the scenario by prog, half of the arguments, a positional argument, the other half, an unrelated flag), so the DEFAULT "
             "ArgsLoader(os.Args) that app.NewApp installs is a source with content (loader #0, marker m0): 1-4 arguments on leaf paths "
             "that loaders of the line supply too, each with its own value, sometimes a small random tree; it is the first loader added, so "
             "the same oracles demand that every raw / args loader added by an option wins over it on a shared key, that it wins over "
             "files, and that a set-type option removes it; "
             "seventh round (tag env; n/20 further lines from fresh forks after all lines above — 100 in quick — and 8 corpus lines): the line runs under an ENVIRONMENT (scenario prefix `EV n name value…`: "
             "the harness sets the variables with os.Setenv for the duration of the scenario and puts the environment back afterwards): an App line of the generators above with the default Configure "
             "(no bare Configure, no SetConfigure; one in four a history, one in three with a process command line) whose key names are partly renamed to ordinary words (path, home, user, lang, java.home, shell, "
             "term, pwd, tmpdir, …, the hyphenated min-version / data-dir), and 1-6 variables named after keys and sections of the line's own documents by the usual convention (upper case, `.` and `-` "
             "become `_`): names of its own (A_B, K, M2, JAVA_HOME_MIN_VERSION: set to a value of their own, 91%) and ordinary ones (PATH, HOME, USER, LANG, JAVA_HOME, …: value `*` = as the process has "
             "it, `x` when it has none; 80%), on leaves (89%) and on sections (62%), sometimes one that collides with nothing; every path is read as before.  Oracle config-env-leak: the same line is run a second "
             "time with these variables ABSENT from the environment and must read the same thing at every path after every Initialize (the effective configuration is the merge of the loader outputs; the "
             "environment is no loader); all other oracles are evaluated on the run WITH the variables; "
             "ninth round, again from fresh forks after all lines above: (a) n/25 lines (tag pipe; 80 in quick) and 7 corpus lines in which ONE of the sources is a loader.NewFileLoader "
             "(about one in seven through app.SetConfig) on a NAMED PIPE (loader kind `n`): the harness makes the pipe with mkfifo in its own scratch directory under os.TempDir, a goroutine "
             "opens it for writing, writes the document once and closes (so the reader meets the end of the input after exactly the document's bytes; an `E` pipe delivers nothing), the start "
             "runs under a 20 s watchdog (signature config-hang) and the pipe is released and removed after the scenario; a pipe delivers once, so such a line has one Initialize, no second "
             "loader on the same path and no `EV` prefix; the source set is one of the ordinary ones (cfgGenCase) in which a file or a raw / priority / ordered loader that is read once became the "
             "pipe, so it stands next to raw / regular-file / argument sources and the unchanged oracles (source-lost, add-discards, last-wins, phantom-key) judge it as the file loader it is; "
             "(b) n/50 lines, at most 400 (tag proc; 40 in quick) and 5 corpus lines are PROCESS HISTORIES (scenario `GS opt* ((GS|NA) opt*)*`): 1-2 sources registered through app.Settings "
             "(AddConfigLoader / SetConfig(file) / Configure.AddLoaders; raw, file, args, priority, ordered) and 2-4 Apps started one after the other, each with 0-3 sources of its own (now and then "
             "through SetConfigLoader), one history in three with a further registration between two Apps; all documents over the same six names; every path is read from every App. app.Settings "
             "appends to a package-level list that is never cleared, so every history runs in a CHILD PROCESS of its own (the harness binary re-executed with the hidden sub-command configchild "
             "and that one line, 120 s limit, 20 s per start; the child evaluates the oracles) — replay does the same. Oracles gs-source-lost / gs-add-discards / gs-last-wins / gs-phantom-key: "
             "the property on every App, its configured sources being the registered ones and its own; the property does not say whether a registered source counts as added before or after "
             "the App's own options, so both readings are evaluated and only a verdict that fails under both is a failure",
        trusted_base=COMMON_TB + ["spf13/viper v1.19.0 merge, key lower-casing, Get and AllSettings as modelled in Ioc.Config (validated by the correspondence)",
                                  "yaml.v3 parsing of the generated documents; go-kid/properties + strconv2 for ArgsLoader values",
                                  "Go's sort.Slice is an insertion sort (stable) below 13 elements, as modelled by sortByKey; on 13 and more elements it returns an "
                                  "ascending permutation (unique, = sortByKey, when the keys differ pairwise: sortByKey_unique)"],
        assumptions=["documents are YAML mappings with ASCII keys that contain no '.' and are not numeric (list indexing through Get is not modelled)",
                     "one map never spells the same key in two different non-lower-case ways (viper's result would then depend on Go's map iteration order); "
                     "lower-case + one other spelling is modelled (the other spelling wins) and generated",
                     "scalar values are compared by their fmt %v text; the generator uses values whose YAML text and %v text coincide (small ints, 1.5, booleans, words, quoted strings)",
                     "within one ArgsLoader a path never extends an earlier scalar (go-kid/properties panics; modelled as `panic`, one corpus case)",
                     "a priority or ordered class with 13 or more loaders holds no two equal Order() values (sort.Slice stays an insertion sort up to 12; "
                     "beyond that ties are placed by pdqsort, which is not modelled and on which the property is silent); the none-ordered class "
                     "may have any size; the harness process itself is started without --app.config arguments (checked), so the default ArgsLoader is empty "
                     "unless the scenario line gives a command line (`OA`), which the harness installs in os.Args before app.NewApp() and removes after the "
                     "last Initialize of the line (the config sub-harness runs its cases one after the other)",
                     "`EV` lines: the model has no environment (its driver checks the form of the prefix and drops it): what the loaders wrote is the whole configuration; the config sub-harness runs its "
                     "cases one after the other, the variables exist only between the start of the scenario and its last read (twice: set, then removed), then the environment is as it was",
                     "named pipes: a pipe is read at most once per scenario (it delivers once); what a source supplies is what can be read from it up to the end of the input — the writer has closed "
                     "by then —, not what the file system reports as its size; Linux FIFO semantics (open for reading and open for writing wait for each other, O_RDWR never blocks)",
                     "process histories: no SetConfigure among the registered options (ONE Configure object shared by all Apps of a process is not modelled), no named pipe, no command line; "
                     "nothing is demanded about the relative order of a registered and an own none-ordered loader or about an own set-type option removing a registered source (either reading passes)",
                     "null is a value: a later null hides an earlier value (viper.Get returns nil), counted as 'last wins'",
                     "histories: the binder has no reset, so a key that only a source removed by a later SetLoaders / SetConfigLoader supplied stays "
                     "visible after the next Initialize (modelled; the property speaks about configured sources, the oracle demands nothing "
                     "about such a key); an Initialize that fails ends the history (nothing is read afterwards)"],
    )
