"""shared strings of the per-property definitions"""
COMMON_TB = [
    "hand-written Lean model lean/Ioc/* (trusted as far as the correspondence exercises it)",
    "correspondence harness /verif/harness (Go, built from /repo with -tags verif): generators, canonicalisation, diff",
    "direct oracles in the harness (property evaluated on the real code's own observations)",
]


# ---- projections of the `graph` sub-harness observation  "st=… ev=… [fl=… pub=…]"

def _gparse(obs):
    d = {}
    for tok in obs.split(" "):
        if "=" in tok:
            k, v = tok.split("=", 1)
            d[k] = v
    return d


def g_wiring(obs):
    """success/failure + which object sits in which field + by-name lookups (C01, C02, C03, C06, C07, C08, C10)"""
    d = _gparse(obs)
    ok = d.get("st") == "ok"
    return ("ok" if ok else ("fail" if d.get("st", "").startswith("err") else d.get("st")), d.get("fl"), d.get("pub"))


def g_lifecycle(obs):
    """outcome class and stage + the lifecycle event log without runner events (C05, C09)"""
    d = _gparse(obs)
    ev = ",".join(e for e in d.get("ev", "-").split(",") if not e.startswith("r"))
    return (d.get("st"), ev)


def g_runners(obs):
    """outcome + runner invocations and their position after all lifecycle events (C13, C09)"""
    d = _gparse(obs)
    evs = d.get("ev", "-").split(",")
    rs = [e for e in evs if e.startswith("r")]
    first = next((i for i, e in enumerate(evs) if e.startswith("r")), len(evs))
    trailing = all(e.startswith("r") or e.startswith("e") for e in evs[first:])
    return (d.get("st"), ",".join(rs), trailing)


GRAPH_TB = COMMON_TB + [
    "reflect (Implements, exact type identity, AssignableTo, MethodByName) — computed by the harness with the same reflect calls and passed to the model as rows",
    "sync.Map enumeration order is imposed through the verif hook (factory.NewWithRegistries) and is an input of the model",
    "sort.Slice is an insertion sort (stable) below 12 elements — runner lists are kept shorter than that",
    "user post-processors are modelled as (name, object) functions and fault flags; callbacks that re-enter the factory are outside the model",
]
