"""shared strings of the per-property definitions"""
COMMON_TB = [
    "hand-written Lean model lean/Ioc/* (trusted as far as the correspondence exercises it)",
    "correspondence harness /verif/harness (Go, built from /repo with -tags verif): generators, canonicalisation, diff",
    "direct oracles in the harness (property evaluated on the real code's own observations)",
]
