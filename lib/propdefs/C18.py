from common import COMMON_TB

PROP = dict(
        module="IocProofs.C18",
        level_text="Proved in Lean for EVERY expression engine and validator (opaque parameters), every configuration, tag text and field type: the order of the "
                   "built-in processors computed from the regenerated processor table (type, marker embeddings, Order() constants of orders.go) puts quote before "
                   "expression before value/prefix binding before validate (C18_stage_order, by evaluation of the regenerated facts); running the processors in "
                   "that order over a property IS the composition quote >> expression >> bind >> validate (C18_pipeline); the expression engine is never handed "
                   "a ${...} pattern and the quote stage leaves none (C18_expr_sees_no_placeholder); the field receives decode(parseAny(formatAny(result))) "
                   "(C18_expr_result); with a validate argument start-up fails iff the validator rejects the bound value, and never without one "
                   "(C18_validate_iff, C18_validate_only_when_asked, C18_validate_outcome); an optional nil pointer is not validated (C18_validate_absent); "
                   "the same composition holds on EVERY population of a property, not only the first: over whatever TagVal and field contents an earlier, failed "
                   "creation left, the stages run again on TagStr and the CURRENT configuration (C18_repopulate_pipeline; a tag without a placeholder is skipped by "
                   "the quote processor and continues from its TagVal: C18_repopulate_no_placeholder). "
                   "What expr and validator compute is tied by a differential run against direct calls of both libraries.",
        level_note="expr-lang/expr and go-playground/validator are opaque parameters of the theorems; the harness evaluates every substituted expression and every "
                   "value x constraint pair directly with the libraries and compares with the real start-up. An optional NON-pointer field for which nothing was "
                   "bound is validated at its zero value (the code's behaviour; stated in C18_validate_outcome).",
        subs=[dict(sub="valueexpr", driver="value", n_quick=5000, n_thorough=53334)],
        thorough_seeds=3,
        rule="alternating: (a) `#{...}` value tags: arithmetic / boolean / string / conditional / membership / list / builtin expressions over literals and "
             "placeholders (${k}, ${k:default}, placeholders expanding to operators and to quoted literals, text around the expression, two expressions in one tag, "
             "deliberately broken expressions), optional validate on the result, bound to int/int64/float64/string/bool/any/pointer/slice fields; "
             "(b) value x constraint pairs: ints, strings, floats, bools, slices with eq ne min max gt lt gte lte len oneof required number, structs with "
             "validate field tags (also behind pointers), bound by ${k} or by prefix, present / absent+optional; "
             "one validation case in six is a struct (or pointer to struct) with a NESTED section: a struct or pointer-to-struct member carrying `required` (or no "
             "constraint) with inner members of their own, the section absent / null / all-zero / filled, the other members valid in half of the cases, bound by ${k} or by prefix; "
             "one expression case in six takes its configured operands through placeholders that declare a default (${k:d}, d different from the configured value, "
             "configured values leaning to 0 and false): the configured value is what the expression must see; the harness substitutes placeholders from the tag's "
             "syntax tree, evaluates with expr.Compile/Run and validator.Var/Struct directly — the validator is handed the field AS DECLARED (a pointer field as the pointer); "
             "one case in six is a POINTER field (*int *int64 *uint *float64 *bool *string) bound through ${k}, by prefix or as the result of an expression, three times in "
             "four to the ZERO value of its pointee (0, 0.0, false, \"\"), with a constraint of the has-a-value family (required, required+bound, omitempty+min/gt/ne/eq/len/oneof): "
             "required holds for a non-nil pointer, omitempty does not skip it; "
             "one case in six is a TWO-STEP HISTORY (kinds RE, RQ): the same holder is populated twice — app.Run under the first configuration where its creation fails "
             "(gate: the tagged field itself — its constraint is violated by the first result or an operand is not configured yet | an extra field whose key is absent | "
             "a dependency whose Init fails while its upstream is down), app.Set of changed operands (numbers, booleans, strings, the operator) or of a changed "
             "validated value, GetComponentByName(holder): the expression must be evaluated on the CURRENT values and validation must judge the value bound by the "
             "second creation (a field that still shows the first result: oracle repopulate-stale); "
             "after these, one further case per twelve is drawn from the same generators (expression cases, expression cases with defaulted operands, value x "
             "constraint pairs, pointer-to-zero pairs, structs with a nested section) and has its placeholders rewritten to name their keys IN TWO STEPS — "
             "`#{${ke1_${ks1}} * 100}`, `${kg3-${ks1}},validate=min=3`, `${${ks1}_kr7:5}`, `${ke1:${ks1}}` (default taken from the configuration), "
             "`${ke1_${ks1-${ks2}}}` (two levels), `prefix:\"kw4_${ks1}\"`; the selector is a short word or a number, configured or absent with a default, in "
             "front of or behind the fixed part, glued with nothing, `_` or `-`; a sibling key under another selector value holds a different value; computed and "
             "flat placeholders stand side by side in one expression. Placeholders are substituted inside-out (the harness substitutes from the tag's syntax "
             "tree): the expression must see, and validation must judge, the SELECTED value (oracles expr-result / validate-iff / bind-direct); "
             "after these, one further case per twelve carries QUOTE CHARACTERS in the value part of its tag, in front of a `,validate=...` argument that the bound text satisfies or violates "
             "(chosen against the harness's own substitution): apostrophes and double quotes in odd and even numbers (o'clock, it's, 5\", rock'n'roll, 'q', say \"hi\", '') in the text "
             "around an expression, inside a placeholder's default (`${k:don't panic}`, key absent or configured), in a plain literal, inside a string literal of the expression "
             "(\"it's\", an escaped \\\") on string / any / *string / int fields - a quote is an ordinary byte of a tag, the argument behind it must be parsed and validation must run; "
             "after these, one further case per twelve (validation pairs, expressions with a constraint, pointer-to-zero pairs, nested sections, quote texts; cases with a validate argument preferred) "
             "has its tagged field in an ANONYMOUS EMBEDDED STRUCT of the holder, one or two levels deep, by value (flags e1 e2: reflect.StructOf with Anonymous fields, an untagged field of its own on "
             "every level, no top-level tag mentioning validate; the corpus also has four Go-declared holders with Go's own embedding, flag g<n>): the container flattens embedded structs into the "
             "holder's properties, so start-up must fail iff the constraint is violated exactly as for a field of the holder itself (validate-iff / expr-result / bind-direct); "
             "after these, one further case per twelve binds a POINT IN TIME (label time; oracle-only: time.Time is outside the model's types): fields of type time.Time / *time.Time / a named type over time.Time and a pointer to it, bound by prefix from a YAML timestamp (yaml hands over a time.Time, no layout involved) or from a text with a `timeLayout` argument (2006-01-02, RFC 3339, 20060102, 02/01/2006, 2006-01-02T15:04:05), through ${k}, from a literal in the tag, absent and optional, a text without a layout / not of the layout; two in three carry a validate argument (required, bare, omitempty, gt, required lt): the harness decodes with mapstructure + the same time hook and hands the bound value to validator.Struct / Var exactly as declared - the validator answers a point in time handed over as a struct with an error, so start-up fails (validate-iff), and a PANIC of the container where the direct validator gives a verdict is reported as validate-panic (never swallowed; also what C09 demands of Run); after these, one further case per twelve (label hidden-field; expression cases - plain, with defaulted operands, with keys named in two steps, with quote characters - preferred, one in six a value x constraint pair) has EVERY tagged field of its holder HIDDEN, in Go's selector sense, by a name collision among embedded structs (flag h<n>, reflect.StructOf with anonymous fields: 1 two mix-ins with a same-named tagged field - the promoted selector is ambiguous -, 2 an embedded tagged field shadowed by an untagged field of the holder with the same name, 3 shadowed from two levels up, 4 ambiguous at depth two; the corpus also has four Go-declared holders, flags g5-g8, one of them with an optional wire field next to the mix-ins) and no other field with a value / prop / prefix tag: Meta.scanFields makes a property of every settable tagged field of every embedded struct, visible or not, so every stage must run - the field, read through the embedded struct explicitly (holder.MixA.H0), must receive the expression's result and start-up must fail iff the constraint is violated (expr-result / validate-iff / bind-direct); 30% of the holders also carry an optional wire dependency (both property groups exist) and are started 4 times, every start must agree (oracle start-unstable); after these (ninth round), one further case per twelve whose HOLDER IS ITSELF A USER POST-PROCESSOR (label pp-holder; eight Go-declared types, flags g9-g16 - reflect.StructOf cannot give a type methods -: container.ComponentPostProcessor by embedding processors.DefaultComponentPostProcessor or with methods of their own, not LazyInit, no Ordered / PriorityOrdered marker; fixed tags `#{${kb}*${kf}},validate=min=10`, `#{'${kn}'+'${kz}'},validate=required min=4`, `${k},validate=min=1 max=100`, `${k:none},validate=alpha ne=blue`, a section `prefix:\"k,validate\"` validated as a struct, `#{${k}/4},validate=lte=2.5`, `#{${ka} > ${kb} && ${kt}}`, a tagged field promoted from an embedded mix-in; the CONFIGURATION is generated on both sides of every constraint, one operand in fourteen not configured): such a component is created while InvokeBeanFactoryPostProcessors resolves the registered processors, before Refresh, and its own fields are configuration properties like anybody's - the expression is evaluated after substitution, the field receives the result, start-up fails iff the constraint is violated (expr-result / validate-iff / bind-direct; the model ignores the flag); non-trivial = all; distinct = distinct scenario lines",
        trusted_base=COMMON_TB + ["the go/ast facts translator for Facts.builtinProcessors / orderConsts",
                                  "expr-lang/expr and go-playground/validator themselves (opaque; called directly by the oracle)",
                                  "strconv2 / mapstructure as modelled in Ioc.Value (validated by the correspondence)"],
        assumptions=["expression results outside the modelled value class (floats printed with an exponent below 1e-4, NaN/Inf, non-string map keys) and validator "
                     "panics on undefined tags are oracle-only cases (scenario prefixed '#')",
                     "the order among processors with equal Order() (value/properties, the three dependency processors) is not claimed and not needed"],
    )
