from common import COMMON_TB, GRAPH_TB, g_wiring, g_lifecycle, g_runners

PROP = dict(
    module="IocProofs.C07",
    signatures=['c07-', 'c09-panic'],
    subs=[dict(sub="graph", n_quick=1500, n_thorough=40000, project=g_wiring), dict(sub="naming", n_quick=3000, n_thorough=100000)],
    thorough_seeds=2,
    level_text='By-name selection, the absent/incompatible cases (error when required, untouched when optional, never a panic) and uniqueness of names are theorems about Ioc.Match / Ioc.Naming / the inject step of the machine; compared with real starts over present/absent/incompatible names x custom/default names x field kinds.',
    level_note="Modelled, not verified: reflect, sync.Map order (imposed), sort.Slice, third-party callbacks as flags/functions. The graph sub-harness is shared with other properties: only this property's oracles and its projection of the observation are compared here.",
    rule="C06's generator; 20% of single-valued points are by name (present, present with incompatible type, absent)",
    trusted_base=GRAPH_TB,
    assumptions=['default names are package path + type name as returned by reflect'],
)
