from common import COMMON_TB, GRAPH_TB, g_wiring, g_lifecycle, g_runners

PROP = dict(
    module="IocProofs.C08",
    signatures=['c08-'],
    subs=[dict(sub="graph", n_quick=1500, n_thorough=40000, project=g_wiring)],
    thorough_seeds=2,
    level_text='Qualifier filtering, the Primary/unnamed preference and independence of fields (the per-property loop is a map) are theorems about Ioc.Match for every population and order; compared with real starts of holders with several tagged fields, including optional points without candidates placed before qualified ones.',
    level_note="Modelled, not verified: reflect, sync.Map order (imposed), sort.Slice, third-party callbacks as flags/functions. The graph sub-harness is shared with other properties: only this property's oracles and its projection of the observation are compared here.",
    rule="C06's generator with qualifier sets of size 1-2 over {a,b,c,'',zz} and holders with 1-5 points",
    trusted_base=GRAPH_TB,
    assumptions=[],
)
