from common import COMMON_TB, GRAPH_TB, g_wiring, g_lifecycle, g_runners

def c_starts(obs):
    """observation of `cstart`: st=<per App> runs=<per runner> early=<k> foreign=<k> - all of it is about runners (C13)"""
    return tuple(obs.split(" "))


PROP = dict(
    module="IocProofs.C13",
    # 'c13-' covers every oracle of this property by prefix; the oracles of the concurrent-start scenarios are
    # c13-conc-once, c13-conc-foreign, c13-conc-after-ready
    signatures=['c13-', 'c13-conc-'],
    subs=[dict(sub="graph", n_quick=1500, n_thorough=40000, project=g_runners),
          # concurrent starts of DIFFERENT Apps in one (fresh child) process after a history of app.Settings calls: per App, its own
          # runners exactly once per start, by its own start, after its own components were initialised. The observation of
          # this scenario kind speaks about runners only (outcome per App, invocations per runner, too-early and foreign
          # invocations), so the projection is the whole observation.
          dict(sub="cstart", driver="conc", n_quick=10, n_thorough=150, project=c_starts)],
    thorough_seeds=2,
    level_text='Runner invocation is a theorem about Ioc.App: the invoked runners are the prefix of the sorted collected runners up to the first failure, every collected runner exactly once when none fails, only after the factory machine is done with every eager component published. The runner log of real starts (three order classes, lazy runners, failing runners) is compared with the model.',
    level_note="Concurrent starts: App.Run's option loop is modelled over Go slices with capacities (Ioc.Conc section 4); for every Settings "
               "history, every capacity and every interleaving each App applies exactly its own options followed by the global ones "
               "(C13_concurrent_starts_isolated), whereas append(globalOptions, ops...) with a spare slot lets one App apply another's "
               "SetComponents (C13_globals_first_counterexample). Modelled, not verified: reflect, sync.Map order (imposed), sort.Slice, third-party callbacks as flags/functions. The graph sub-harness is shared with other properties: only this property's oracles and its projection of the observation are compared here.",
    rule="C01's generator with runner types of the three order classes (plain, ordered, priority-ordered+lazy) and failing runners; "
         "cstart <hist> <nops> <sync> <trials> <r>x<m>...: each scenario in a fresh child process: the app.Settings history hist (mostly three "
         "one-option calls; 1-6 calls of 1-4 no-op options, or none), then trials (3; 15 without rendezvous; thorough 6/30) rounds of 2-5 "
         "(thorough 2-8) fresh Apps started at the same moment, App i with its own r (1-4) runners and m (0-6) eager components, passed to "
         "Run as 1 (2/3 of the cases), 2 or 3 separate options; in 4/5 of the cases the last Settings option is a rendezvous of the starting "
         "Apps (1 s give-up timer)",
    trusted_base=GRAPH_TB,
    assumptions=['sort.Slice is stable below 12 elements; runner lists are shorter'],
)
