from common import COMMON_TB, GRAPH_TB, g_wiring, g_lifecycle, g_runners

PROP = dict(
    module="IocProofs.C13",
    signatures=['c13-'],
    subs=[dict(sub="graph", n_quick=1500, n_thorough=40000, project=g_runners)],
    thorough_seeds=2,
    level_text='Runner invocation is a theorem about Ioc.App: the invoked runners are the prefix of the sorted collected runners up to the first failure, every collected runner exactly once when none fails, only after the factory machine is done with every eager component published. The runner log of real starts (three order classes, lazy runners, failing runners) is compared with the model.',
    level_note="Modelled, not verified: reflect, sync.Map order (imposed), sort.Slice, third-party callbacks as flags/functions. The graph sub-harness is shared with other properties: only this property's oracles and its projection of the observation are compared here.",
    rule="C01's generator with runner types of the three order classes (plain, ordered, priority-ordered+lazy) and failing runners",
    trusted_base=GRAPH_TB,
    assumptions=['sort.Slice is stable below 12 elements; runner lists are shorter'],
)
