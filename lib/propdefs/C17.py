from common import COMMON_TB

PROP = dict(
        module="IocProofs.C17",
        level_text="Proved in Lean for every field type (scalars, pointers, slices, maps, nested structs) and every configuration: binding by prefix "
                   "gives exactly the document value converted to the field type (C17_prefix_exact); the prop shorthand is definitionally the value tag "
                   "${key} with the same arguments (C17_prop_is_value); binding through ${key} equals binding by prefix for every Faithful value "
                   "(C17_value_eq_prefix_partial: plain strings, |int| <= 2^53, booleans, short decimals, JSON-safe lists/maps thereof) and a plain literal "
                   "is bound as written (C17_literal_partial); a default declared in the placeholder or the shorthand (${key:d}, prop:\"key:d\") plays no part "
                   "whenever the key is configured with a present value, the zero values 0 / false / 0.0 / \"\" included (C17_default_ignored); "
                   "a property that is populated AGAIN after a failed creation of its component binds exactly what a first-time population under the CURRENT "
                   "configuration binds, whatever TagVal and field contents the earlier population left (C17_repopulate_current, on the holder model "
                   "Ioc.Value.createTwice: Property objects survive in the definition registry). The full statements are FALSE of the code (the value path FormatAny -> splice -> ParseAny is "
                   "lossy); one machine-checked counterexample per class (C17_counterexamples) is replayed on the real code on every run and listed as a "
                   "known finding. The model is tied to the real container by a differential run of thousands of value x type pairs per run.",
        level_note="Partial: the value-path theorems carry the decidable hypothesis Faithful / PlainLiteral; encoding/json is a parameter assumed to "
                   "round-trip JSON-safe values (Json.Lawful; checked of the concrete codec by example and by the correspondence); yaml.v3, viper, "
                   "mapstructure, strconv2, strconv float formatting are modelled (validated by the correspondence), not verified. "
                   "float64->int64 of a value >= 2^63 is modelled as amd64 does it.",
        subs=[dict(sub="value", n_quick=5000, n_thorough=66667)],
        thorough_seeds=3,
        rule="holder struct{V T `value:\"${k}\"`; P T `prop:\"k\"`; X T `prefix:\"k\"`} built with reflect.StructOf, real app.Run with a raw YAML loader; "
             "70% value generated for the field type (ints of every magnitude incl. +-2^53+-1 and 2^63-1, short decimals, booleans, strings of the classes "
             "plain / number-like / bool-like / quoted / bracketed / punctuation (spaces, commas, colons, braces, quotes, $ #) / unicode / empty, lists, "
             "nested maps; types string int int64 uint float64 bool any *string *int []string []int map[string]any map[string]string nested structs), "
             "20% weakly typed or incompatible pairs, 5% absent key, 5% re-expansion strings; 1 in 8 cases writes a literal in the value tag; "
             "every sixth case DECLARES A DEFAULT: holder struct{V T `value:\"${k:d}\"`; P T `prop:\"k:d\"`; X T `prefix:\"k\"`} with a type-compatible default d that "
             "differs from the configured value; half of these configure k with the ZERO VALUE of its kind (false, 0, 0.0, \"\"), the others a generated value, "
             "a weak pair or no value at all (then only V = P is demanded); a configured key must win over the default (oracle valuepath-defaulted); "
             "about 25% of the cases pre-fill the bound fields with non-zero defaults (the configured value must replace them exactly: oracle prefill-merged); "
             "10% of the holders also carry an optional wire dependency and are started 4 times (oracle start-unstable); "
             "every tenth case is a TWO-STEP HISTORY (kind R3): the same holder is populated twice — app.Run under the first configuration, where the "
             "holder's creation fails after the placeholder stage ran (gate: the key is not configured yet | an extra field G int `value:\"${kgate}\"` first/last "
             "in the holder whose key is absent | a required lazily created dependency whose Init fails while its upstream is down), then app.Set(key, v2) "
             "(one history in five repoints an indirection instead: `value:\"${${kenv}}\"`, `prop:\"${kenv}\"`, `prefix:\"${kenv}\"`), then GetComponentByName(holder); "
             "v1 and v2 are two different values of the field type outside the lossy classes (also pointers to structs); after the second creation "
             "V = P = X = the CURRENT document value is demanded (a field that still shows the first configuration's value: oracle repopulate-stale); "
             "non-trivial = everything except bool->bool; distinct = distinct scenario lines",
        trusted_base=COMMON_TB + ["yaml.v3 + viper (document -> Go value), strconv2.ParseAny/FormatAny, mapstructure weak decoding, fmt %v / strconv.FormatFloat, "
                                  "encoding/json as modelled in Ioc.Value (validated by the correspondence on every run)",
                                  "assumption Json.Lawful on the JSON codec parameter of the list/map part of C17_value_eq_prefix_partial"],
        assumptions=["configuration keys are plain (letters, digits, . _ -) and lower-case (viper lower-cases keys; C15's matter)",
                     "the numeric kind of a number stored under `any` is not compared (int 5 and float64 5 render alike); nil and empty slices/maps render alike",
                     "value-path equality is claimed for Faithful values only; its complement is exactly the eight known-finding classes "
                     "(numberlike, boollike, quoted, bracketed, bigint, empty, reexpanded, panic)",
                     "pairs whose Go behaviour is implementation defined or outside the modelled float class (negative -> uint, underscores in numeric strings, "
                     "hex/exponent float strings, > 15 significant digits) are generated as oracle-only cases (scenario prefixed '#')"],
    )
