from common import COMMON_TB

PROP = dict(
        module="IocProofs.C17",
        level_text="Proved in Lean for every field type (scalars, pointers, slices, maps, nested structs) and every configuration: binding by prefix "
                   "gives exactly the document value converted to the field type (C17_prefix_exact); the prop shorthand is definitionally the value tag "
                   "${key} with the same arguments (C17_prop_is_value); binding through ${key} equals binding by prefix for every Faithful value "
                   "(C17_value_eq_prefix_partial: plain strings, |int| <= 2^53, booleans, short decimals, JSON-safe lists/maps thereof) and a plain literal "
                   "is bound as written (C17_literal_partial); a struct member is bound from the key equal to its name up to letter case - with keys pairwise different up to letter case the decoder's search (exact name first, else the first match in Go's map order) IS the case-insensitive search (C17_member_key_any_case), so a map literal whose keys are spelled with capitals binds the same struct as the document's lower-cased section (C17_struct_keys_respelled) and sibling keys that differ from a member's key by `-` / `_` only play no part (C17_decoy_key_ignored); a default declared in the placeholder or the shorthand (${key:d}, prop:\"key:d\") plays no part "
                   "whenever the key is configured with a present value, the zero values 0 / false / 0.0 / \"\" included (C17_default_ignored); "
                   "a property that is populated AGAIN after a failed creation of its component binds exactly what a first-time population under the CURRENT "
                   "configuration binds, whatever TagVal and field contents the earlier population left (C17_repopulate_current, on the holder model "
                   "Ioc.Value.createTwice: Property objects survive in the definition registry). Configure.Set is modelled as viper's override layer over the merged documents (Ioc.Value.Binder; "
                   "a lookup is a function of the two layers as they are now): after Set the path answers with what was set, in any letter case (C17_set_get), every ancestor answers with a "
                   "map in which the rest of the path leads to it (C17_set_seen_through_ancestor), every path below a map that was set answers from that map (C17_set_seen_below), and a holder "
                   "populated later is populated under the configuration as it is then (C17_later_population_current) - so the prefix / value / prop theorems, which hold for every "
                   "configuration function, speak about the CURRENT configuration. One part of that reading is FALSE of the code and recorded as finding KF-C17-9: after Set on one key of a section a lookup "
                   "of the SECTION answers from what was handed to Set alone, so a struct / map bound by prefix afterwards has lost the section's other keys while prop / ${} on those keys "
                   "still give the documents' values (C17_set_sibling_lost_counterexample pins it in the binder model; oracle setget-sibling-lost, replayed on the real code on every run). "
                   "A component that edits the untyped map / list it was given performs no operation on the binder: a holder populated afterwards is populated as the documents say "
                   "(C17_edit_is_no_set; observed on the real code by the histories of kind HM, oracle bound-aliased). The full statements are FALSE of the code (the value path FormatAny -> splice -> ParseAny is "
                   "lossy); one machine-checked counterexample per class (C17_counterexamples) is replayed on the real code on every run and listed as a "
                   "known finding. The model is tied to the real container by a differential run of thousands of value x type pairs per run.",
        level_note="Partial: the value-path theorems carry the decidable hypothesis Faithful / PlainLiteral; encoding/json is a parameter assumed to "
                   "round-trip JSON-safe values (Json.Lawful; checked of the concrete codec by example and by the correspondence); yaml.v3, viper, "
                   "mapstructure, strconv2, strconv float formatting are modelled (validated by the correspondence), not verified. "
                   "float64->int64 of a value >= 2^63 is modelled as amd64 does it.",
        subs=[dict(sub="value", n_quick=5000, n_thorough=66667)],
        thorough_seeds=3,
        rule="holder struct{V T `value:\"${k}\"`; P T `prop:\"k\"`; X T `prefix:\"k\"`} built with reflect.StructOf, real app.Run with a raw YAML loader; "
             "70% value generated for the field type (ints of every magnitude incl. +-2^53+-1 and 2^63-1, short decimals, booleans, strings of the classes "
             "plain / number-like / bool-like / quoted / bracketed / punctuation (spaces, commas, colons, braces, quotes, $ #) / unicode / empty, lists, "
             "nested maps; types string int int64 uint float64 bool any *string *int []string []int map[string]any map[string]string nested structs), "
             "20% weakly typed or incompatible pairs, 5% absent key, 5% re-expansion strings; 1 in 8 cases writes a literal in the value tag; "
             "every sixth case DECLARES A DEFAULT: holder struct{V T `value:\"${k:d}\"`; P T `prop:\"k:d\"`; X T `prefix:\"k\"`} with a type-compatible default d that "
             "differs from the configured value; half of these configure k with the ZERO VALUE of its kind (false, 0, 0.0, \"\"), the others a generated value, "
             "a weak pair or no value at all (then only V = P is demanded); a configured key must win over the default (oracle valuepath-defaulted); "
             "about 25% of the cases pre-fill the bound fields with non-zero defaults (the configured value must replace them exactly: oracle prefill-merged); "
             "10% of the holders also carry an optional wire dependency and are started 4 times (oracle start-unstable); "
             "every tenth case is a TWO-STEP HISTORY (kind R3): the same holder is populated twice — app.Run under the first configuration, where the "
             "holder's creation fails after the placeholder stage ran (gate: the key is not configured yet | an extra field G int `value:\"${kgate}\"` first/last "
             "in the holder whose key is absent | a required lazily created dependency whose Init fails while its upstream is down), then app.Set(key, v2) "
             "(one history in five repoints an indirection instead: `value:\"${${kenv}}\"`, `prop:\"${kenv}\"`, `prefix:\"${kenv}\"`), then GetComponentByName(holder); "
             "v1 and v2 are two different values of the field type outside the lossy classes (also pointers to structs); after the second creation "
             "V = P = X = the CURRENT document value is demanded (a field that still shows the first configuration's value: oracle repopulate-stale); "
             "after the n cases, n/10 HISTORIES WITH Set BETWEEN TWO POPULATIONS (kind HS): a document with a section (2-4 leaves: strings, ints, booleans outside the lossy classes) and "
             "often a sub-section; an EAGER holder created by a start - fields of their own types: the section or sub-section bound by prefix as a struct over some of its members "
             "or as map[string]any, leaves bound by `${a.b}`, `prop:\"a.b\"`, `prefix:\"a.b\"`, inside a text, with a default on an absent key, paths in any letter case -, "
             "then app.Set (a leaf below a section the start looked up; the sub-section or section replaced by a map with changed values, upper-case keys, missing siblings; "
             "the path in another letter case; a key or section that was absent; several Sets at, above and below one path), then a LATE holder populated afterwards: "
             "mode s = a second App sharing the Configure (app.SetConfigure, no loaders) after a SUCCESSFUL start; mode w = the same App, whose start created the eager holder "
             "and failed while the late holder's dependency was down, GetComponentByName afterwards; mode z = the same App after a SUCCESSFUL start, the late holder a "
             "LazyInit component (four Go-declared holders over a fixed vocabulary: reflect.StructOf types cannot carry methods) fetched with GetComponentByName. The late "
             "holder binds the section by prefix (struct reading the changed leaf, or map) next to value / prop twins of the changed leaf: every late field whose path the "
             "harness's own account of the configuration is sure of (document + values handed to Set, composed in order: a path no Set is near, or one that a Set at or above "
             "it gave a value; structs member by member, texts placeholder by placeholder) must hold the CURRENT value converted to its type - setget-stale (the field shows what "
             "the document said before Set) / setget-current / setget-first (eager holder); "
             "a member of a late prefix-bound struct / map that no Set is at, above or below, beside a path that was set below the same bound ancestor, must hold the DOCUMENT's value: lost "
             "(zero / missing) = the known defect setget-sibling-lost (KF-C17-9), any other value = setget-current; "
             "after these, n/10 cases whose DOCUMENT IS WRITTEN DIFFERENTLY (flags y1-y6, f): the harness's own YAML emitter writes the same configuration in block style with the key under test LAST - "
             "strings as literal block scalars `|2-` `|2` `|2+` or folded `>2` (the chomping indicator chosen from the number of line breaks at the end of the intended text) -, behind a byte order mark, "
             "blank lines and a comment, indented as a whole by two columns, or without a final line break; one in three through a temporary file and loader.NewFileLoader (the others loader.NewRawLoader; "
             "every case goes through configure.loadConfigure and the binder's SetConfig); three in five of these bind texts with significant white space (1-3 lines, blanks in front of / behind a line, "
             "tabs, `: ` ` # ` ` - ` inside, 0-3 line breaks at the end, an empty first line) to string, *string, any, []string, map[string]string, map[string]any and structs of strings; the bound "
             "string is compared with the string the harness put into the document (prefix-mismatch / prop-differs / valuepath-*); "
             "after these, n/25 histories of kind HM: holder A binds a section / a list by prefix into map[string]any / []any fields, the TOP LEVEL of those values is edited in place (set a key, "
             "delete a key, overwrite an element, append) - by the harness after the start, or by A's own Init (Go-declared vlMutInit) -, holder B binds the same subtrees by prefix (map, list, "
             "[]string, struct), through a placeholder and the shorthand: a second App sharing the Configure | the same start (B populated before the edit, read after it; Go-declared observers "
             "whose names sort in front of / behind A's) | a LazyInit holder fetched afterwards; B must hold the document's values: bound-aliased; "
             "after these, n/25 HM histories whose edits go BELOW the top level (`<field>:/k<hexkey>/i<index>/…:<op>`): a key set / deleted inside a nested map (sa.sb, sa.sb.sc), an element of a nested list "
             "(sa.sb.sl) or of a map inside a list (sm: [{kn, kp}, …]) overwritten, edits through fields of type any bound by prefix to a section / a list (type-asserted, top level and below; Go-declared "
             "vlMutInitAny for the Init modes j<n> ja jz); B binds the affected leaves by prop / ${} / prefix (scalar, struct, *struct, []struct, map, any); same oracle; "
             "after these, n/25 cases whose KEYS AND MEMBER NAMES DIFFER IN LETTER CASE (label keycase): struct / *struct / []struct / map[string]struct targets (members string, int, bool, []string, a nested struct; (yaml) names and keys spelled host / Host / HOST / hOst independently, the first member's key always with a capital and spelled differently from the name) bound from a map literal in the value tag (`map[Host:a Port:1]` or the JSON form, keys as written) next to prop / prefix twins that take the same data from the document, from the DEFAULT of a placeholder and of the shorthand (`${kx:map[Host:a]}`, `prop:\"kx:map[Host:a]\"`, kx absent) next to a prefix twin on a key that holds the same data, and through ${k} / prop / prefix from the document: the literal / the default is bound as written (valuepath-keycase), the prefix twin holds the document's data (prefix-mismatch), the shorthand twin of a placeholder with a default binds what the placeholder binds (prop-differs), ${k} = prop = prefix (valuepath-other); after these, n/25 cases whose sections have DECOY KEYS (label decoy): next to a member's key (`a`, `a_b`, `maxconn`) one or two siblings that differ from it by `-` / `_` only (`_a`, `a-`, `ab`, `max_conn`, `max-conn`) with another value of the same type; the member's name has a capital three times in four (then no key is spelled exactly like it); bound through ${k} / prop / prefix, from a literal, from a default, into struct / *struct / []struct / map-of-struct; every case is STARTED 4 TIMES (flag r; mapstructure ranges over a Go map when it looks for a member's key) and one in three writes the keys of its document in capitals (flag c<n>: Capitalised / UPPER / aLTERNATING; viper lower-cases them): the member must hold the value under the key equal to its name up to letter case on every start (start-unstable / prefix-mismatch / valuepath-other); non-trivial = everything except bool->bool; distinct = distinct scenario lines",
        trusted_base=COMMON_TB + ["yaml.v3 + viper (document -> Go value), strconv2.ParseAny/FormatAny, mapstructure weak decoding, fmt %v / strconv.FormatFloat, "
                                  "encoding/json as modelled in Ioc.Value (validated by the correspondence on every run)",
                                  "assumption Json.Lawful on the JSON codec parameter of the list/map part of C17_value_eq_prefix_partial"],
        assumptions=["configuration keys are plain (letters, digits, . _ -) and lower-case (viper lower-cases keys; C15's matter)",
                     "the numeric kind of a number stored under `any` is not compared (int 5 and float64 5 render alike); nil and empty slices/maps render alike",
                     "histories (HS): what a lookup answers BESIDE a path that was handed to Set - `db.port` read through `prefix:\"db\"` after Set(\"db.host\", x): viper answers a section from its "
                     "override layer alone, the prefix-bound struct gets port 0 while prop:\"db.port\" still gives the document's value - is finding KF-C17-9 (the model has the code's behaviour, the "
                     "oracle setget-sibling-lost demands the document's value); what a lookup answers below a section that was REPLACED by a map which does not mention the path is not claimed; "
                     "paths run through maps (no list index), Set is not handed nil",
                     "histories (HM): a bound value is edited with the operations a component has on map[string]any / []any (set / delete a key, overwrite an element, append) at any depth the document "
                     "has, fields of type any are type-asserted first; since the repair d95d431 (D23: the binder hands out copies) no depth is excluded; the edits never touch typed values "
                     "(structs, []string, map[string]string), which the decoder builds anew anyway",
                     "value-path equality is claimed for Faithful values only; its complement is exactly the eight known-finding classes "
                     "(numberlike, boollike, quoted, bracketed, bigint, empty, reexpanded, panic)",
                     "pairs whose Go behaviour is implementation defined or outside the modelled float class (negative -> uint, underscores in numeric strings, "
                     "hex/exponent float strings, > 15 significant digits) are generated as oracle-only cases (scenario prefixed '#')"],
    )
