from common import COMMON_TB

PROP = dict(
        module="IocProofs.C12",
        level_text="The ordering contract (every participant exactly once; priority-ordered, then ordered, then unordered; Order values "
                   "never decrease inside the first two blocks; unordered keep registration order) is proved in Lean for ALL participant "
                   "lists with arbitrary integer Order values, for a model of SortOrderedComponents that mirrors its partition loop and is "
                   "parameterised by an ABSTRACT sort assumed only to return a sorted permutation (so Go's unstable sort.Slice is covered); "
                   "the runner / loader / post-processor loops are modelled with their early exits and proved to visit exactly the sorted "
                   "sequence front to back (a prefix ending at the first failing participant); so is the GetEarlyBeanReference loop "
                   "(the smart post-processors of one early-reference request, in sorted order, each once), and EVERY Initialize of a "
                   "Configure after any sequence of SetLoaders / AddLoaders / Initialize calls. The model is tied to the code by direct "
                   "differential calls of the real SortOrderedComponents, by real application starts with logging loaders, post-processors "
                   "and runners (also with the probe in a circular reference, the processors registered in an imposed order, logging the "
                   "early-reference callbacks), by step sequences on one real Configure, and by regenerated syntactic facts (call sites, data flow into the loops, shape of the sorter, comparator, loops).",
        level_note="Assumed, not verified: Go's sort.Slice returns a permutation ordered by the comparator (stated as the hypothesis SortSpec; "
                   "checked on every run by the oracles on 0-40 element inputs including the >12 pdqsort paths). Registration order of "
                   "runners and post-processors comes from a sync.Map enumeration, so for them the unordered block's internal order is "
                   "not part of what is compared.",
        subs=[dict(sub="order", n_quick=5000, n_thorough=300000),
              dict(sub="orderstart", driver="order", n_quick=500, n_thorough=12000)],
        thorough_seeds=1,
        rule="order: 0-40 participants of four Go types (Priority+Order, Order, neither, Priority-without-Order), class weights and key "
             "pool drawn per case (all of {min int64,-3..3,max int64} / ties only / extremes), 3/8 of the cases longer than 12; "
             "orderstart: real App.Run with 0-8 (1/5: 0-20) loaders, post-processors (1/3 InstantiationAware) and runners of all classes and "
             "one probe component; in 2/3 of the processor lists each processor is LazyInit (marker z, definition.LazyInitComponent embedded) with probability 1/3 or 1/2, in all three order classes and mixed with eager ones (label lazy-ahead-of-eager: some lazy processor must by the contract precede an eager one); in 1/3 of the processor lists with two or more processors one processor DECORATES (marker w: its PostProcessAfterInitialization answers every post-processor component created after it with a decorator embedding only the container post-processor interface, so the instance in the chain has neither Order() nor Priority(); the decorator forwards the callbacks, the contract is judged by the registered processor's class and Order), half of those lists arranged as decorator (priority-ordered, minimal Order) < eager ordered processor < LazyInit ordered processor (label decorated-ahead-of-undecorated); with injected stops (loader error / rejected config, processor error or nil answer before/after "
             "initialisation, runner error) only on participants whose position does not depend on tie order; a case is trivial when it "
             "has at most one participant; 3/10 of the orderstart cases (`SC`) put the probe into a circular reference with a second "
             "singleton, make 3/5 of the processors SmartInstantiationAware and impose the P section as registration order "
             "(GetEarlyBeanReference log compared and checked against the contract per early-reference request); 2/10 (`Q`) drive one "
             "Configure through SetLoaders / AddLoaders / Initialize sequences (half of them: Initialize, SetLoaders of the same size, "
             "Initialize [, AddLoaders, Initialize]), contract checked on every Initialize against the loaders registered then; "
             "distinct = distinct scenario lines",
        trusted_base=COMMON_TB + ["Go sort.Slice meets SortSpec (permutation, ordered by the comparator) — hypothesis of the theorems, exercised by the oracles",
                                  "Go interface type assertions as modelled by Part.ofIfaces (validated by the correspondence, incl. Priority-without-Order)"],
        assumptions=["participants' Order() is a pure function (same value on every call during one sort)",
                     "for runners and post-processors the registration order is the enumeration order of a sync.Map and is not compared; "
                     "loaders and direct calls compare the unordered block with identities",
                     "GetEarlyBeanReference callbacks return the component they were given without error (an error there would make the "
                     "other logs depend on which member of the cycle is created first); one early-reference request per `SC` start",
                     "a LazyInit post-processor is used as registered (never created by the factory); the eager ones are fetched from the factory and, having no injection points, are the registered instances too — unless a decorating processor (marker w) is ahead of them in the sorted raw slice: then the factory's answer is a decorator around the registered instance (modelled by Driver.Order.resolveIn; C12_resolved_processors_invoked_in_order / C12_decorated_processors_keep_position hold for every such answer)",
                     "user post-processors in the starts have no injection points (the known limitation about Priority-ordered processors created early does not interfere)"],
    )
