from common import COMMON_TB

PROP = dict(
        module="IocProofs.C12",
        level_text="The ordering contract (every participant exactly once; priority-ordered, then ordered, then unordered; Order values "
                   "never decrease inside the first two blocks; unordered keep registration order) is proved in Lean for ALL participant "
                   "lists with arbitrary integer Order values, for a model of SortOrderedComponents that mirrors its partition loop and is "
                   "parameterised by an ABSTRACT sort assumed only to return a sorted permutation (so Go's unstable sort.Slice is covered); "
                   "the runner / loader / post-processor loops are modelled with their early exits and proved to visit exactly the sorted "
                   "sequence front to back (a prefix ending at the first failing participant); so is the GetEarlyBeanReference loop "
                   "(the smart post-processors of one early-reference request, in sorted order, each once), the short-circuit of createComponent "
                   "(PostProcessBeforeInstantiation asked in sorted order up to the first answer; a supplied component gets the "
                   "after-initialization chain only, each processor at most once; every component of a start, supplied or not, sees each "
                   "callback log as a prefix of the sorted sequence), and EVERY Initialize of a "
                   "Configure after any sequence of SetLoaders / AddLoaders / Initialize calls. The model is tied to the code by direct "
                   "differential calls of the real SortOrderedComponents, by real application starts with logging loaders, post-processors "
                   "and runners (also with the probe in a circular reference, the processors registered in an imposed order, logging the "
                   "early-reference callbacks), by step sequences on one real Configure, and by regenerated syntactic facts (call sites, data flow into the loops, shape of the sorter, comparator, loops).",
        level_note="Assumed, not verified: Go's sort.Slice returns a permutation ordered by the comparator (stated as the hypothesis SortSpec; "
                   "checked on every run by the oracles on 0-40 element inputs including the >12 pdqsort paths). Registration order of "
                   "runners and post-processors comes from a sync.Map enumeration, so for them the unordered block's internal order is "
                   "not part of what is compared.",
        subs=[dict(sub="order", n_quick=5000, n_thorough=300000),
              dict(sub="orderstart", driver="order", n_quick=500, n_thorough=12000)],
        thorough_seeds=1,
        rule="order: 0-40 participants of four Go types (Priority+Order, Order, neither, Priority-without-Order), class weights and key "
             "pool drawn per case (all of {min int64,-3..3,max int64} / ties only / extremes), 3/8 of the cases longer than 12; "
             "orderstart: real App.Run with 0-8 (1/5: 0-20) loaders, post-processors (1/3 InstantiationAware) and runners of all classes and "
             "one probe component; in 2/3 of the processor lists each processor is LazyInit (marker z, definition.LazyInitComponent embedded) with probability 1/3 or 1/2, in all three order classes and mixed with eager ones (label lazy-ahead-of-eager: some lazy processor must by the contract precede an eager one); in 1/3 of the processor lists with two or more processors one processor DECORATES (marker w: its PostProcessAfterInitialization answers every post-processor component created after it with a decorator embedding only the container post-processor interface, so the instance in the chain has neither Order() nor Priority(); the decorator forwards the callbacks, the contract is judged by the registered processor's class and Order), half of those lists arranged as decorator (priority-ordered, minimal Order) < eager ordered processor < LazyInit ordered processor (label decorated-ahead-of-undecorated); with injected stops (loader error / rejected config, processor error or nil answer before/after "
             "initialisation, runner error) only on participants whose position does not depend on tie order; a case is trivial when it "
             "has at most one participant; 3/10 of the orderstart cases (`SC`) put the probe into a circular reference with a second "
             "singleton, make 3/5 of the processors SmartInstantiationAware and impose the P section as registration order "
             "(GetEarlyBeanReference log compared and checked against the contract per early-reference request); 2/10 (`Q`) drive one "
             "Configure through SetLoaders / AddLoaders / Initialize sequences (half of them: Initialize, SetLoaders of the same size, "
             "Initialize [, AddLoaders, Initialize]), contract checked on every Initialize against the loaders registered then; "
             "after these n cases, n/5 `SB` starts: TWO watched components (ordprobe, ordtwin) and InstantiationAware processors that SUPPLY an "
             "instance from PostProcessBeforeInstantiation (marker b: for ordprobe, d: for ordtwin; 7/8 of the cases: one, the other, both by one "
             "processor, both by two; 1/10 with a processor failing there, marker %; 1/2 with a third of the processors REPLACING the watched "
             "components after initialization, marker r; suppliers in all three order classes, LazyInit or eager, only where the asked prefix does "
             "not depend on tie order), every callback of every processor logged per component (PostProcessBeforeInstantiation, "
             "AfterInstantiation, BeforeInitialization, AfterInitialization) plus what the component finally is; oracles per component: each log "
             "under the contract, each participant once, a supplied component gets the after-initialization chain and nothing else "
             "(start-binst-*, start-after-*, start-shortcut); and n/5 starts with ZERO-SIZE runners (marker e: twelve field-less Go types, three "
             "per class, which report through a package-level record of the current start) next to ordinary ones: at least two zero-size "
             "runners of different Go types among three or more runners, a quarter of these starts with the probe in a circular reference; a third of the `SB` starts has zero-size runners too; "
             "ninth round, after these: n/10 starts (S 1/2, SC 1/4, SB 1/4) in which one to three processors and a third of the runners reach "
             "the singleton registry through TWO routes (marker t: the same pointer twice in the application's SetComponents call, u: listed "
             "again in a second SetComponents option, tu: both) — the existing per-component log oracles demand every participant once per "
             "component, in contract order; and n/10 starts (S 5/8, SC 1/4, SB 1/8) with runners whose Order() answers a field bound from "
             "configuration (marker c: `value:\"${ordrc.<slot>}\"`, eight Go types, four per ordered class, Orders within +-10^6; named ordR<id>, "
             "so they are created after the App component), at least two of them in one class with different Orders, the definition registry "
             "made to enumerate them last and in DESCENDING Order (GetMetas permuter through factory.NewWithRegistries); the runner oracle "
             "judges the start sequence by the Order() each runner answered when its Run was called; a quarter of these starts also has "
             "participants registered twice; "
             "distinct = distinct scenario lines",
        trusted_base=COMMON_TB + ["Go sort.Slice meets SortSpec (permutation, ordered by the comparator) — hypothesis of the theorems, exercised by the oracles",
                                  "Go interface type assertions as modelled by Part.ofIfaces (validated by the correspondence, incl. Priority-without-Order)"],
        assumptions=["participants' Order() is a pure function (same value on every call during one sort)",
                     "for runners and post-processors the registration order is the enumeration order of a sync.Map and is not compared; "
                     "loaders and direct calls compare the unordered block with identities",
                     "GetEarlyBeanReference callbacks return the component they were given without error (an error there would make the "
                     "other logs depend on which member of the cycle is created first); one early-reference request per `SC` start",
                     "a LazyInit post-processor is used as registered (never created by the factory); the eager ones are fetched from the factory and, having no injection points, are the registered instances too — unless a decorating processor (marker w) is ahead of them in the sorted raw slice: then the factory's answer is a decorator around the registered instance (modelled by Driver.Order.resolveIn; C12_resolved_processors_invoked_in_order / C12_decorated_processors_keep_position hold for every such answer)",
                     "zero-size runners read their Order and report their Run through a package-level record of the current start (one start at a time per harness process)",
                     "`SB` starts: the two watched components have no injection points and are created by Refresh in name order (ordprobe, ordtwin); a supplied instance is a fresh object of another Go type",
                     "runners with a configuration-driven Order (marker c): the configured Orders stay within +-10^6, where every conversion between the YAML document and the int field is exact (outside it the value binding, not the ordering, decides what Order() answers: 9223372036854775807 arrives as -9223372036854775808)",
                     "participants registered twice (markers t / u) are registered as the SAME pointer; a different object under a taken name panics in RegisterSingleton and is not a scenario of this property",
                     "user post-processors in the starts have no injection points (the known limitation about Priority-ordered processors created early does not interfere)"],
    )
