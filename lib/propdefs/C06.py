from common import COMMON_TB, GRAPH_TB, g_wiring, g_lifecycle, g_runners

PROP = dict(
    module="IocProofs.C06",
    signatures=['c06-'],
    subs=[dict(sub="graph", n_quick=1500, n_thorough=40000, project=g_wiring)],
    thorough_seeds=2,
    level_text='Soundness and completeness of type-directed candidates are theorems about the matching model (Ioc.Match) for every population and enumeration order; the model (fed with reflection facts computed by the harness with the same reflect calls) is compared with real starts, and an independent oracle re-derives the compatible set per field from the real objects.',
    level_note="Modelled, not verified: reflect, sync.Map order (imposed), sort.Slice, third-party callbacks as flags/functions. The graph sub-harness is shared with other properties: only this property's oracles and its projection of the observation are compared here.",
    rule='provider populations of 2-9 instances over 18 universe types (4 interfaces with overlapping implementers, named/unnamed, lazy/eager, methods with 0/1 results and with parameters) x consumer fields *T, I, []*T, []I, any, []any, func tags',
    trusted_base=GRAPH_TB,
    assumptions=['reflect.Implements/AssignableTo/MethodByName are inputs (computed by the harness)', 'func-tag `returns` arguments and method results are plain strings'],
)
