from common import COMMON_TB, GRAPH_TB, g_wiring, g_lifecycle, g_runners

PROP = dict(
    module="IocProofs.C02",
    signatures=['c02-', 'c09-panic'],
    subs=[dict(sub="graph", n_quick=1500, n_thorough=40000, project=g_wiring)],
    thorough_seeds=2,
    level_text="Termination is proved for the factory machine with an explicit step bound (fuelBound) for EVERY graph - cycles of any length, overlapping cycles, cycles through slices - by a strictly decreasing potential; 'never wired to itself' and the self-only point behaviour are step invariants. The real recursion is tied to the machine by the correspondence (outcome and wiring of every generated graph, run under a watchdog).",
    level_note="Modelled, not verified: reflect, sync.Map order (imposed), sort.Slice, third-party callbacks as flags/functions. The graph sub-harness is shared with other properties: only this property's oracles and its projection of the observation are compared here.",
    rule='same generator as C01 with cycle families forced (every rotation through naming); hang = no return within 10 s',
    trusted_base=GRAPH_TB,
    assumptions=['termination of the REAL recursion is observed (watchdog) and tied to the machine by the correspondence, not proved about Go', 'allowCircularReferences is the regenerated constant true'],
)
