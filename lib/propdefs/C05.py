from common import COMMON_TB, GRAPH_TB, g_wiring, g_lifecycle, g_runners

PROP = dict(
    module="IocProofs.C05",
    signatures=['c05-', 'd8-', 'factory-half-built', 'factory-recreated', 'factory-deps-first'],
    subs=[dict(sub="graph", n_quick=1500, n_thorough=40000, project=g_lifecycle),
          # histories on the real factory with failing Init calls that the caller tolerates, then retries (lazy components,
          # single / chain / cycle / diamond): a component handed out has completed Init exactly once, dependencies first
          dict(sub="registry", n_quick=1200, n_thorough=60000)],
    thorough_seeds=2,
    level_text="Lifecycle order and exactly-once are invariants of the machine's event log for every scenario; dependencies-first follows from the stack invariant. The real event log (written by Init/AfterPropertiesSet methods of every universe type and by an observing post-processor) is compared event by event with the model's log.",
    level_note="Modelled, not verified: reflect, sync.Map order (imposed), sort.Slice, third-party callbacks as flags/functions. The graph sub-harness is shared with other properties: only this property's oracles and its projection of the observation are compared here.",
    rule="C01's generator (diamonds and cycles with tails forced); lazy/eager mixes through type-level LazyInit variants",
    trusted_base=GRAPH_TB,
    assumptions=['PostProcessBeforeInitialization returning nil (which skips the init methods) is a user post-processor misuse outside the model'],
)
