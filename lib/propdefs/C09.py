from common import COMMON_TB, GRAPH_TB, g_wiring, g_lifecycle, g_runners

PROP = dict(
    module="IocProofs.C09",
    signatures=['c09-', 'd8-', 'c02-hang', 'c02-crash'],
    subs=[dict(sub="graph", n_quick=1500, n_thorough=40000, project=g_lifecycle)],
    thorough_seeds=2,
    level_text='The outcome of App.run is characterised as a theorem (ok iff every stage succeeded; runners only after a successful refresh), every fault site is shown to fail the start in the step that meets it, an exhaustive case analysis lists the only causes of failure, and optional points never fail. Faults are injected one at a time at every place (required point, each callback, loader, scanner, runner) of generated base scenarios and the outcome class, failing stage, event log and runner log are compared with the real Run under recover() and a watchdog.',
    level_note="Modelled, not verified: reflect, sync.Map order (imposed), sort.Slice, third-party callbacks as flags/functions. The graph sub-harness is shared with other properties: only this property's oracles and its projection of the observation are compared here.",
    rule="C01's generator plus fault sweeps: every single fault place of a base scenario; outcome classes ok / err.config / err.factory / err.refresh / err.runners / panic / hang",
    trusted_base=GRAPH_TB,
    assumptions=['panics raised by user code or by duplicate registration are outside the statement'],
)
