#!/bin/sh
# lib/seedtest.sh <patch.diff> <tag> <Cxx> [Cxx…]
# Mutation rehearsal without touching /repo: applies the patch to a scratch copy of /repo (HEAD + working tree),
# runs the given checks from a scratch copy of /verif against it (VERIF_REPO), prints the verdict lines, cleans up.
set -u
PATCH=$(readlink -f "$1"); TAG=$2; shift 2
ALT=/tmp/alt/$TAG
rm -rf "$ALT"; mkdir -p "$ALT"
cp -r /repo "$ALT/repo"
( cd "$ALT/repo" && git apply "$PATCH" ) || { echo "PATCH-DOES-NOT-APPLY $TAG"; rm -rf "$ALT"; exit 3; }
rsync -a --exclude .git --exclude replays "${VERIF_SRC:-/verif}/" "$ALT/verif/"
export VERIF_REPO="$ALT/repo" GOFLAGS=-mod=mod GOPROXY=off GOSUMDB=off GOTOOLCHAIN=local
( cd "$ALT/repo" && go build ./... ) || { echo "MUTANT-DOES-NOT-BUILD $TAG"; rm -rf "$ALT"; exit 3; }
for P in "$@"; do
  ( cd "$ALT/verif" && timeout 1500 ./check "$P" --tier "${TIER:-quick}" 2>&1 | grep -E "VIOLATION|KNOWN-FINDING|BROKEN|obligations=" | cut -c1-260 | sed "s/^/[$TAG $P] /" )
  if [ -n "${KEEP_REPLAY:-}" ] && ls "$ALT/verif/replays/" >/dev/null 2>&1; then mkdir -p "/tmp/alt-replays/$TAG"; cp "$ALT"/verif/replays/* "/tmp/alt-replays/$TAG/" 2>/dev/null; fi
done
rm -rf "$ALT"
