"""Per-property configuration of ./check. One file per property under lib/propdefs/ (Cxx.py defining PROP):
the theorem file, the sub-harnesses of the correspondence and their sizes per tier, and what the
evidence and MANIFEST say about rule / assumptions / level."""
import importlib.util, os, sys

_d = os.path.join(os.path.dirname(os.path.abspath(__file__)), "propdefs")
sys.path.insert(0, _d)
PROPS = {}
for _f in sorted(os.listdir(_d)):
    if _f.startswith("C") and _f.endswith(".py"):
        _spec = importlib.util.spec_from_file_location("propdef_" + _f[:-3], os.path.join(_d, _f))
        _m = importlib.util.module_from_spec(_spec)
        _spec.loader.exec_module(_m)
        PROPS[_f[:-3]] = _m.PROP
